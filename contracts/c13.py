"""C13 - orbital-energy fraction algebra.  Contracts on
adcgen.expr_container:Term.split_orb_energy and the nested function
adcgen.eri_orbenergy:EriOrbenergy.cancel_orb_energy_frac.cancel."""
import z3
from pyvc import contract as C
from pyvc.contract import Contract, LoopContract, register
from pyvc.values import (Struct, Sym, SymSeq, PList, PDict, Inst, term, wrap, zand, zor,
                         znot, zeq, Unsupported)
from pyvc.vc import RaiseEx

ASSUMPTIONS = [
    "sympy Pow/Mul/Add are homomorphisms for the value (field arithmetic over the orbital energies and tensor values); Pow(b, e) has value b^e",
    "abstract view of Term/Obj (kernel K0): Term.objects, Obj.base_and_exponent, Obj.sympy.is_number, Obj.contains_only_orb_energies; Expr(1, **assumptions) is the empty product; Expr *= x multiplies",
    "power function: uninterpreted POW(b, e) with POW(b, e1) * POW(b, e2) = POW(b, e1 + e2) instantiated where needed, POW(b, 0) = 1, POW(b, 1) = b",
]
TRUSTED = []

ObjS = z3.DeclareSort("TermObject")
obj_base = z3.Function("obj_base_value", ObjS, z3.RealSort())
obj_exp = z3.Function("obj_exponent", ObjS, z3.IntSort())
obj_isnum = z3.Function("obj_is_number", ObjS, z3.BoolSort())
obj_orben = z3.Function("obj_only_orbital_energies", ObjS, z3.BoolSort())
POW = z3.Function("POW", z3.RealSort(), z3.IntSort(), z3.RealSort())
PART = {k: z3.Function(f"part_prefix_{k}", z3.ArraySort(z3.IntSort(), ObjS), z3.IntSort(), z3.RealSort())
        for k in ("num", "denom", "remainder")}


def obj_attr(name):
    def f(ip, o):
        t = o.t
        if name == "base_and_exponent":
            return (Struct("BaseVal", v=obj_base(t)), Sym(obj_exp(t)))
        if name == "sympy":
            return Struct("SympyObj", t=t)
        if name == "contains_only_orb_energies":
            return Sym(obj_orben(t))
    return f


C.Schema("TermObject", ObjS, attrs={
    "base_and_exponent": ("py", obj_attr("base_and_exponent")),
    "sympy": ("py", obj_attr("sympy")),
    "contains_only_orb_energies": ("py", obj_attr("contains_only_orb_energies")),
})
C.STRUCT_ATTR[("SympyObj", "is_number")] = lambda ip, o: Sym(obj_isnum(o.f["t"]))


def model_pow(ip, args, kwargs):
    b, e = args
    if isinstance(b, Struct) and b.cls == "BaseVal":
        return Struct("PowVal", v=POW(b.f["v"], term(e)))
    raise Unsupported("Pow of this base")


def model_abs(ip, args, kwargs):
    v = args[0]
    if isinstance(v, (int, float)):
        return abs(v)
    t = term(v)
    return wrap(z3.If(t >= 0, t, -t))


def part_inplace(ip, opn, cur, rhs):
    if opn == "Mult" and isinstance(rhs, Struct) and rhs.cls == "PowVal":
        cur.f["val"] = cur.f["val"] * rhs.f["v"]
        return True, cur
    raise Unsupported("operation on a part of the split term")


C.STRUCT_INPLACE["PartExpr"] = part_inplace


def spec_factor(t, key):
    """contribution of object t to the part `key`: numbers (with their own
    exponent) and orbital energy polynoms with positive exponent -> numerator, orbital energy polynoms
    with negative exponent -> denominator (with the positive exponent), all
    other objects -> remainder WITH their own exponent"""
    b, e = obj_base(t), obj_exp(t)
    one = z3.RealVal(1)
    if key == "num":
        return z3.If(obj_isnum(t), POW(b, e),
                     z3.If(z3.And(obj_orben(t), e >= 0), POW(b, e), one))
    if key == "denom":
        return z3.If(z3.And(z3.Not(obj_isnum(t)), obj_orben(t), e < 0), POW(b, -e), one)
    return z3.If(z3.Or(obj_isnum(t), obj_orben(t)), one, POW(b, e))


class SplitLoop(LoopContract):
    modifies = ("ret",)          # the dict entries are replaced in place
    def iter_spec(self, vc, frame, seq):
        return [("runs-over-the-objects-of-the-term", seq.obj is frame["self"].f["objseq"])]

    def havoc(self, vc, frame, k, seq):
        for key in ("num", "denom", "remainder"):
            frame["ret"].d[key] = Struct("PartExpr", val=vc.fresh_real(key), asm=frame["assumptions"])
        for nm in ("o", "base", "exponent", "key"):
            frame.locals.pop(nm, None)

    def invariant(self, vc, frame, k, seq):
        arr = frame["self"].f["objseq"].arrs[0]
        kk = term(k)
        out = []
        ret = frame["ret"]
        if not (isinstance(ret, PDict) and set(ret.d) == {"num", "denom", "remainder"}):
            return [("three-parts", False)]
        for key in ("num", "denom", "remainder"):
            P = PART[key]
            vc.assume(P(arr, 0) == 1)
            vc.assume(z3.Implies(kk >= 0, P(arr, kk + 1) == P(arr, kk) * spec_factor(arr[kk], key)))
            out.append((f"{key}-is-the-product-of-its-objects", ret.d[key].f["val"] == P(arr, kk)))
        return out


@register
class SplitOrbEnergy(Contract):
    key = "adcgen.expr_container:Term.split_orb_energy"
    props = ["C13"]
    loops = {0: SplitLoop()}

    def setup(self, vc):
        n = vc.fresh_int("nobj")
        vc.assume(n >= 0)
        arr = vc.fresh("objects", z3.ArraySort(z3.IntSort(), ObjS))
        seq = SymSeq(Sym(n), [arr], ("sym", ObjS, "TermObject"), mutable=False)
        me = Struct("TermArg", objseq=seq, target=Struct("Targets"), asm=PDict({"real": True}))
        C.STRUCT_ATTR[("TermArg", "objects")] = lambda ip, o: o.f["objseq"]
        C.STRUCT_ATTR[("TermArg", "assumptions")] = lambda ip, o: PDict(dict(o.f["asm"].d))
        C.EXTERNALS["sympy.Pow"] = model_pow
        from pyvc.values import PyFunc
        vc.ip.builtins = dict(vc.ip.builtins, abs=PyFunc(model_abs, "abs"))

        def expr_model(ip, args, kwargs):
            if args[0] == 1:
                return Struct("PartExpr", val=z3.RealVal(1), asm=dict(kwargs))
            raise Unsupported("Expr(...)")
        C.CLASS_MODELS["adcgen.expr_container:Expr"] = expr_model
        return {"self": me}

    def post(self, vc, a, result):
        seq = a["self"].f["objseq"]
        arr, n = seq.arrs[0], term(seq.len)
        if not (isinstance(result, PDict) and set(result.d) == {"num", "denom", "remainder"}):
            return [("returns-num-denom-remainder", False)]
        out = []
        for key in ("num", "denom", "remainder"):
            out.append((f"{key}-is-the-product-of-its-objects",
                        result.d[key].f["val"] == PART[key](arr, n)))
            asm = result.d[key].f["asm"]
            tg = (asm.d if isinstance(asm, PDict) else asm).get("target_idx")
            out.append((f"{key}-carries-the-target-indices-of-the-term", tg is a["self"].f["target"]))
        return out


@C.lemma("C13", "split-recombines")
def split_recombines():
    """per object: num * remainder / denom contribution equals base^exponent
    (so that num * remainder / denom rebuilds the term), given the power laws
    POW(b, e) * POW(b, -e) = 1 for b != 0"""
    t = z3.Const("o", ObjS)
    b, e = obj_base(t), obj_exp(t)
    laws = z3.And(POW(b, e) * POW(b, -e) == 1, POW(b, -e) != 0)
    lhs = spec_factor(t, "num") * spec_factor(t, "remainder")
    return [("object-contribution-is-base^exponent",
             z3.Implies(laws, lhs == POW(b, e) * spec_factor(t, "denom")))]


# ====================================================================================
# cancel_orb_energy_frac.cancel: value(original) = value(cancelled) + pref * eri * num / prod(denom)
# at every exit of the loop
# ====================================================================================
BrS = z3.DeclareSort("Bracket")
ListS = z3.DeclareSort("BracketList")
BRK = z3.Function("bracket_at", ListS, z3.IntSort(), BrS)
NBR = z3.Function("n_brackets", ListS, z3.IntSort())
FULL = z3.Function("product_of_brackets", ListS, z3.RealSort())
BRV = z3.Function("bracket_base_value", BrS, z3.RealSort())
BRE = z3.Function("bracket_exponent", BrS, z3.IntSort())
BRX = z3.Function("bracket_is_expr", BrS, z3.BoolSort())
NIDX = z3.Function("bracket_n_indices", BrS, z3.IntSort())
NumS = z3.DeclareSort("NumeratorState")
NREL = z3.Function("n_relevant_prefactors", NumS, BrS, z3.IntSort())
MINP = z3.Function("smallest_relevant_prefactor", NumS, BrS, z3.RealSort())
ASSUMPTIONS += [
    "product lemma: prod(list) = value(bracket_i) * prod(list without bracket_i); replacing bracket_i by base^(e-1) divides the product by base (non vanishing denominator brackets)",
    "num.terms / term.prefactor / term.idx (numerator bookkeeping) are abstract: the number of relevant prefactors and the smallest one are uninterpreted functions of the numerator state and the bracket",
]


def bracket_value(b):
    return z3.If(BRX(b), BRV(b), POW(BRV(b), BRE(b)))


def br_attr(name):
    def f(ip, o):
        t = o.t
        if name == "idx":
            return Struct("BracketIdx", t=t)
        if name == "sympy":
            return Struct("BaseVal", v=BRV(t))
        if name == "base_and_exponent":
            return (Struct("BaseVal", v=BRV(t)), Sym(BRE(t)))
        if name == "assumptions":
            return PDict({})
    return f


C.Schema("Bracket", BrS, attrs={n: ("py", br_attr(n)) for n in
                               ("idx", "sympy", "base_and_exponent", "assumptions")})
C.SCHEMAS["Bracket"].isinstance_hook = lambda ip, v, short: BRX(v.t) if short == "Expr" else (
    z3.Not(BRX(v.t)) if short == "Polynom" else None)
C.STRUCT_LEN["BracketIdx"] = lambda ip, v: wrap(NIDX(v.f["t"]))
C.STRUCT_LEN["RelPrefs"] = lambda ip, v: wrap(NREL(v.f["num"], v.f["br"]))


def bl_symiter(ip, obj):
    from pyvc.builtins import SymIter
    lst = obj.f["t"]
    ip.vc.assume(NBR(lst) >= 0)
    return SymIter("brackets", obj, Sym(NBR(lst)), lambda ip_, k: Sym(BRK(lst, term(k)), "Bracket"))


C.STRUCT_SYMITER["BracketList"] = bl_symiter


def bl_subscript(ip, obj, idx):
    if isinstance(idx, tuple) and idx[0] == "slice":
        return Struct("BLSlice", of=obj, lo=idx[1], hi=idx[2])
    raise Unsupported("subscript of the bracket list")


def bl_store(ip, obj, idx, v):
    if obj.f.get("view") in ("copy", None) and isinstance(v, Struct) and v.cls == "NewBracket":
        # (view None: the list object itself is modified - every alias sees it)
        b = BRK(obj.f["t"], term(idx))
        ip.vc.check("store#bracket-is-replaced-by-base^(exponent-1)",
                    z3.And(v.f["base"] == BRV(b), v.f["exp"] == BRE(b) - 1, z3.Not(BRX(b))))
        obj.f["view"] = ("replaced", term(idx), v)
        return
    raise Unsupported("store into the bracket list")


def blslice_arith(ip, opn, a, b):
    if opn == "Add" and a.cls == b.cls == "BLSlice" and a.f["of"] is b.f["of"] and \
            a.f["lo"] is None and b.f["hi"] is None and a.f["hi"] is not None and b.f["lo"] is not None:
        i = term(a.f["hi"])
        ip.vc.check("slice#new-denominator-omits-exactly-the-cancelled-bracket",
                    term(b.f["lo"]) == i + 1)
        return Struct("BracketList", t=a.f["of"].f["t"], view=("removed", i))
    raise Unsupported("concatenation of bracket list slices")


C.STRUCT_SUBSCRIPT["BracketList"] = bl_subscript
C.STRUCT_STORE["BracketList"] = bl_store
C.STRUCT_ARITH["BLSlice"] = blslice_arith


def bl_copy_or_slice(ip, obj, idx):
    if isinstance(idx, tuple) and idx[0] == "slice":
        if idx[1] is None and idx[2] is None:
            return Struct("BracketList", t=obj.f["t"], view="copy")
        return Struct("BLSlice", of=obj, lo=idx[1], hi=idx[2])
    raise Unsupported("subscript of the bracket list")


C.STRUCT_SUBSCRIPT["BracketList"] = bl_copy_or_slice


IFULL = z3.Function("inverse_product_of_brackets", ListS, z3.RealSort())


def inverse_list_product(lst_struct):
    """1 / prod(list view) as a polynomial in 1/prod(full list) (product lemma):
    removed bracket i: value(b_i) / prod(full); bracket i replaced by
    base^(e-1): base / prod(full)"""
    t = lst_struct.f["t"]
    view = lst_struct.f.get("view")
    if view is None or view == "copy":
        return IFULL(t)
    kind, i = view[0], view[1]
    b = BRK(t, i)
    if kind == "removed":
        return IFULL(t) * bracket_value(b)
    return IFULL(t) * BRV(b)


class Val(Struct):
    pass


def mkval(v):
    return Struct("Val", v=v)


def val_arith(ip, opn, a, b):
    def tv(x):
        if isinstance(x, Struct) and x.cls in ("Val", "NumExpr"):
            return x.f["v"]
        if isinstance(x, Struct) and x.cls == "BaseVal":
            return x.f["v"]
        if isinstance(x, (int, float)):
            return z3.RealVal(x)
        t = term(x)
        return z3.ToReal(t) if z3.is_int(t) else t
    if opn == "neg":
        return mkval(-tv(a))
    if opn == "Div" and isinstance(b, Struct) and b.cls == "InvProd":
        return mkval(tv(a) * b.f["inv"])
    va, vb = tv(a), tv(b)
    r = {"Add": va + vb, "Sub": va - vb, "Mult": va * vb, "Div": va / vb}.get(opn)
    if r is None:
        raise Unsupported(f"operator {opn} on values")
    return mkval(r)


for _c in ("Val", "NumExpr", "BaseVal"):
    C.STRUCT_ARITH[_c] = val_arith


def num_inplace(ip, opn, cur, rhs):
    if opn in ("Sub", "Add") and isinstance(rhs, Struct) and rhs.cls == "BaseVal":
        cur.f["v"] = cur.f["v"] - rhs.f["v"] if opn == "Sub" else cur.f["v"] + rhs.f["v"]
        cur.f["state"] = ip.vc.fresh("numstate", NumS)
        return True, cur
    raise Unsupported("in place operation on the numerator")


C.STRUCT_INPLACE["NumExpr"] = num_inplace
C.STRUCT_METHODS[("NumExpr", "copy")] = lambda ip, o, a, k: Struct("NumExpr", v=o.f["v"], state=o.f["state"],
                                                                 isnum=o.f["isnum"], iszero=o.f["iszero"])
C.STRUCT_ATTR[("NumExpr", "sympy")] = lambda ip, o: Struct("NumSympy", of=o)


def _numsympy_isnumber(ip, o):
    n = o.f["of"]
    b = ip.vc.fresh_bool("num_is_number")
    return Sym(b)


C.STRUCT_ATTR[("NumSympy", "is_number")] = _numsympy_isnumber


def numsympy_is(ip, a, b):
    for x, y in ((a, b), (b, a)):
        if isinstance(x, Struct) and x.cls == "NumSympy" and isinstance(y, Struct) and \
                y.f.get("singleton") == "Zero":
            z = ip.vc.fresh_bool("num_is_zero")
            ip.vc.assume(z3.Implies(z, x.f["of"].f["v"] == 0))
            return z
    return a is b


C.STRUCT_IS["NumSympy"] = numsympy_is


def relprefs_comp(ip, frame, node):
    num, br = frame["num"], frame["bracket"]
    return Struct("RelPrefs", num=num.f["state"], br=br.t)


def model_min_pref(ip, args, kwargs):
    v = args[0]
    if isinstance(v, Struct) and v.cls == "RelPrefs":
        m = MINP(v.f["num"], v.f["br"])
        ip.vc.assume(m != 0)
        return Sym(m)
    from pyvc.builtins import b_min
    return b_min(ip, args, kwargs)


def sym_is_one(ip, a, b):
    raise Unsupported("identity")


class CancelLoop(LoopContract):
    modifies = ("num", "pref", "cancelled_result")
    def iter_spec(self, vc, frame, seq):
        inner = getattr(seq.obj, "inner", None)
        return [("runs-over-the-denominator-brackets",
                 seq.kind == "enumerate" and inner is frame["denom"])]

    def havoc(self, vc, frame, k, seq):
        frame["num"] = Struct("NumExpr", v=vc.fresh_real("num"), state=vc.fresh("numstate", NumS),
                              isnum=None, iszero=None)
        frame["pref"] = Sym(vc.fresh_real("pref"))
        frame["cancelled_result"] = None if vc.choose(2, "cancelled-none") == 0 else \
            mkval(vc.fresh_real("cancelled"))
        for nm in ("bracket_i", "bracket", "bracket_indices", "relevant_prefs", "min_pref",
                   "exponent", "base", "new_denom"):
            frame.locals.pop(nm, None)

    def invariant(self, vc, frame, k, seq):
        g = vc.ghost["_cancel"]
        cr = frame["cancelled_result"]
        crv = z3.RealVal(0) if cr is None else cr.f["v"]
        pref = term(frame["pref"])
        return [("original = cancelled + pref * eri * num / prod(denom)",
                 g["orig"] == crv + pref * g["eri"] * frame["num"].f["v"] * IFULL(g["list"]))]


@register
class Cancel(Contract):
    key = "adcgen.eri_orbenergy:EriOrbenergy.cancel_orb_energy_frac.cancel"
    props = ["C13"]
    loops = {0: CancelLoop()}
    comprehensions = {"term.prefactor for term in num.terms if term.idx[0] in bracket_indices": relprefs_comp}

    def setup(self, vc):
        lst = vc.fresh("denom", ListS)
        num = Struct("NumExpr", v=vc.fresh_real("num0"), state=vc.fresh("numstate", NumS),
                     isnum=None, iszero=None)
        pref = vc.fresh_real("pref0")
        eri = vc.fresh_real("eri")
        orig = vc.fresh_real("orig")
        k = z3.Int("k!b")
        # type invariant of the denominator: non vanishing brackets, exponents >= 1
        vc.ghost["_cancel"] = {"list": lst, "eri": eri, "orig": orig}
        C.EXTERNALS["sympy.Pow"] = model_pow_bracket
        C.EXTERNALS["sympy.S.One"] = Struct("Expr", singleton="One")
        C.EXTERNALS["sympy.S.Zero"] = Struct("Expr", singleton="Zero")
        C.CLASS_MODELS["adcgen.expr_container:Expr"] = model_expr_bracket
        from pyvc.values import PyFunc
        vc.ip.builtins = dict(vc.ip.builtins, min=PyFunc(model_min_pref, "min"))
        denom = Struct("BracketList", t=lst)
        return {"num": num, "denom": denom, "pref": Sym(pref), "_eri": eri, "_orig": orig}

    def pre(self, vc, a):
        g = vc.ghost["_cancel"]
        return [("self.expr-is-the-fraction",
                 g["orig"] == term(a["pref"]) * g["eri"] * a["num"].f["v"] * IFULL(g["list"]))]

    def closure(self, vc, a):
        me = Struct("EriOrbenergyV")
        C.STRUCT_ATTR[("EriOrbenergyV", "eri")] = lambda ip, o: mkval(a["_eri"])
        C.STRUCT_ATTR[("EriOrbenergyV", "expr")] = lambda ip, o: mkval(a["_orig"])
        from pyvc.values import FuncRef, ExtRef
        return {"self": me, "multiply": Struct("MultiplyFn"),
                "e": ExtRef("adcgen.expr_container")}

    def post(self, vc, a, result):
        if not (isinstance(result, Struct) and result.cls == "Val"):
            return [("returns-an-expression", False)]
        return [("value-of-the-fraction-is-unchanged", result.f["v"] == a["_orig"])]


def model_pow_bracket(ip, args, kwargs):
    b, e = args
    if isinstance(b, Struct) and b.cls == "BaseVal":
        return Struct("PowVal", v=POW(b.f["v"], term(e)), base=b.f["v"], exp=term(e))
    raise Unsupported("Pow of this base")


def model_expr_bracket(ip, args, kwargs):
    v = args[0]
    if isinstance(v, Struct) and v.cls == "PowVal":
        return Struct("NewBracket", val=v.f["v"], base=v.f["base"], exp=v.f["exp"])
    if isinstance(v, Struct) and v.cls == "BaseVal":
        return mkval(v.f["v"])
    raise Unsupported("Expr(...) of this argument")


def call_multiply(ip, obj, args, kwargs):
    lst = args[0]
    if isinstance(lst, Struct) and lst.cls == "BracketList":
        t = lst.f["t"]
        view = lst.f.get("view")
        if isinstance(view, tuple):
            b = BRK(t, view[1])
            # power law used by the product lemma: base^e = base * base^(e-1)
            ip.vc.assume(POW(BRV(b), 1) == BRV(b))
        return Struct("InvProd", inv=inverse_list_product(lst))
    raise Unsupported("multiply of this list")


C.STRUCT_METHODS[("MultiplyFn", "__call__")] = call_multiply


@register
class FactorAndRemoveNumber(Contract):
    key = "adcgen.eri_orbenergy:factor_and_remove_number"
    props = []
    assumed = True
    note = "value of the expression divided by the number (sympy factor / nsimplify keep the value)"

    def apply(self, vc, a):
        e, n = a["expr"], a["number"]
        q = vc.fresh_real("num_over_number")
        vc.assume(q * term(n) == e.f["v"])
        return Struct("NumExpr", v=q, state=vc.fresh("numstate", NumS), isnum=None, iszero=None)


# --- denom_eri_sym: common symmetry of remainder and denominator ------------------------------
# The symmetry of the remainder is requested with the caller's restrictions (permute_num asks for
# permutations of CONTRACTED indices only - a permutation of target indices would change the
# value of the symmetrised numerator) in every branch; a permutation is reported with
# factor * (+1 | -1) iff it maps the denominator onto +- itself and with None otherwise.
EOK = "adcgen.eri_orbenergy:EriOrbenergy"
DVAL = z3.Function("denominator_value_after", z3.IntSort(), z3.RealSort())   # permutation id (0: none)


def _sym_request(ip, obj, args, kwargs):
    vc = ip.vc
    st = vc.ghost["_des"]
    want = st["kwargs"]
    same = set(kwargs) == set(want) and all(kwargs[k] is want[k] or kwargs[k] == want[k] for k in want)
    vc.check("symmetry#remainder-symmetry-is-requested-with-the-callers-restrictions", bool(same) and not args)
    return st["eri_sym"]


C.STRUCT_METHODS[("EriPartV", "symmetry")] = _sym_request
C.STRUCT_METHODS[("DenomPartV", "copy")] = lambda ip, o, a, k: o
C.STRUCT_METHODS[("DenomPartV", "permute")] = lambda ip, o, a, k: Struct(
    "DenomPartV", sympy=Struct("DenomVal", pid=int(a[0][4:]) if a else 0), is_number=o.f["is_number"])


def _denomval_arith(ip, opn, a, b):
    """denom +- permuted denom: only its vanishing is looked at"""
    if opn not in ("Add", "Sub") or not all(isinstance(x, Struct) and x.cls == "DenomVal" for x in (a, b)):
        raise Unsupported("arithmetic on the denominator value")
    va, vb = DVAL(a.f["pid"]), DVAL(b.f["pid"])
    return Struct("DenomCombo", val=va + vb if opn == "Add" else va - vb)


def _is_zero(ip, a, b):
    from sympy import S as _S  # noqa: F401
    for x, y in ((a, b), (b, a)):
        if isinstance(x, Struct) and x.cls == "DenomCombo":
            return x.f["val"] == 0
        if isinstance(x, Struct) and x.cls == "DenomVal":
            return DVAL(x.f["pid"]) == 0
    return a is b


C.STRUCT_ARITH["DenomVal"] = _denomval_arith
C.STRUCT_IS["DenomCombo"] = _is_zero
C.STRUCT_IS["DenomVal"] = _is_zero
C.STRUCT_ATTR[("DenomVal", "is_number")] = lambda ip, o: False


@register
class DenomEriSym(Contract):
    key = EOK + ".denom_eri_sym"
    props = ["C13"]
    CASES = [(num, given, nperm, kw) for num in (False, True) for given in (False, True)
             for nperm in (0, 1, 2) for kw in (False, True)]
    split_first_choice = len(CASES)

    def setup(self, vc):
        numeric, given, nperm, kw = self.CASES[vc.choose(len(self.CASES), "case")]
        perms = [(f"perm{k + 1}",) for k in range(nperm)]      # opaque permutation products
        factors = [[1, -1][vc.choose(2, "factor")] for _ in range(nperm)]
        sym = PDict(dict(zip(perms, factors)))
        kwargs = {"only_contracted": True} if kw else {}
        dval = Struct("DenomVal", pid=0)
        C.STRUCT_ATTR[("DenomVal", "is_number")] = lambda ip, o: numeric
        denom = Struct("DenomPartV", sympy=dval, is_number=numeric)
        eri = Struct("EriPartV", idx=(1,))
        vc.ghost["_des"] = {"kwargs": kwargs, "eri_sym": sym, "perms": perms, "factors": factors,
                            "numeric": numeric, "given": given}
        return {"self": Inst(EOK, {"denom": denom, "eri": eri}), "eri_sym": sym if given else None,
                "kwargs": PDict(dict(kwargs))}

    def bind(self, vc, args, kwargs, interp):
        return Contract.bind(self, vc, args, kwargs, interp)

    def post(self, vc, a, result):
        st = vc.ghost["_des"]
        if st["numeric"]:
            return [("numeric-denominator:the-symmetry-of-the-remainder-itself", result is st["eri_sym"])]
        if not isinstance(result, PDict):
            return [("returns-a-dict-over-the-permutations", False)]
        out = [("one-entry-per-permutation-of-the-remainder",
                set(result.d.keys()) <= set(st["perms"]))]
        d0 = DVAL(0)
        for p, f in zip(st["perms"], st["factors"]):
            dp = DVAL(int(p[0][4:]))
            if p not in result.d:
                out.append(("dropped-only-if-the-permuted-denominator-vanishes", z3.And(dp == 0, d0 != 0)))
                continue
            v = result.d[p]
            if v is None:
                out.append(("None-iff-the-permutation-changes-the-denominator",
                            z3.And(d0 - dp != 0, d0 + dp != 0)))
            else:
                out.append(("factor-times-the-sign-of-the-denominator",
                            z3.Or(z3.And(d0 - dp == 0, term(v) == f), z3.And(d0 - dp != 0, d0 + dp == 0, term(v) == -f))))
        return out


# --- Obj.diagonalize_fock: f_pq^n = delta_pq e_p^n for a diagonal Fock matrix ------------------------
# An element with two different indices whose delta can be evaluated is replaced by the n-th power of
# the orbital energy of the surviving index together with the substitution of the other index;
# everything else (other tensors, f_pp, off diagonal blocks, deltas that can not be evaluated) is
# handed back unchanged / as zero without substitution.
ASSUMPTIONS += [
    "Obj.diagonalize_fock: KroneckerDelta(p, q) is S.Zero / S.One / a delta (three cases, C06 contract of KroneckerDelta.eval); evaluate_deltas (C09 contract) either returns a product (the delta could not be evaluated) or the object with exactly one of the two indices left; sympy.Pow / NonSymmetricTensor build the named objects; the exponent is symbolic",
]


class _FockEvaluateDeltas(Contract):
    key = "adcgen.func:evaluate_deltas"
    props = []
    assumed = True
    note = "C09 contract: the delta is evaluated (one index survives) or the product is returned"

    def apply(self, vc, a):
        ok = isinstance(a["expr"], Struct) and a["expr"].cls == "ObjTimesDelta"
        vc.check("pre@evaluate_deltas#the-object-times-its-delta-is-evaluated-with-the-target-indices-in-force",
                 ok and a.get("target_idx") is vc.ghost["_target"])
        survivor = vc.ghost["_survivor"]
        if survivor is None:
            return Struct("MulV2")
        return Struct("Evaluated", left=survivor)


register(_FockEvaluateDeltas)


@register
class ObjDiagonalizeFock(Contract):
    key = "adcgen.expr_container:Obj.diagonalize_fock"
    props = ["C13"]

    def setup(self, vc):
        from pyvc.values import PSet
        from spec.idx import new_index
        zero, one = Struct("Expr", singleton="Zero"), Struct("Expr", singleton="One")
        C.EXTERNALS["sympy.S.One"], C.EXTERNALS["sympy.S.Zero"] = one, zero
        C.EXTERNALS["adcgen.tensor_names:tensor_names"] = Struct("TensorNames", fock="f", orb_energy="e")
        is_fock = vc.choose(2, "is_fock") == 1
        dcase = ["zero", "one", "delta"][vc.choose(3, "delta")]
        ecase = ["not-evaluated", "p-survives", "q-survives"][vc.choose(3, "evaluation")]
        p, q = new_index(vc, "p"), new_index(vc, "q")
        expo = Sym(vc.fresh_int("exponent"))
        me = Struct("FockObj", name="f" if is_fock else "X", idx=(p, q), exponent=expo,
                    sympy=Struct("ObjSympy"), assm=Struct("Opaque", what="assumptions"),
                    term=Struct("TermOfObj2", target=Struct("Opaque", what="target indices of the term")))
        for f in ("name", "idx", "exponent", "sympy", "term"):
            C.STRUCT_ATTR[("FockObj", f)] = (lambda f: lambda ip, o: o.f[f])(f)
        C.STRUCT_ATTR[("FockObj", "assumptions")] = lambda ip, o: PDict({"marker": o.f["assm"]})
        C.STRUCT_ATTR[("TermOfObj2", "target")] = lambda ip, o: o.f["target"]
        delta = {"zero": zero, "one": one, "delta": Struct("DeltaPQ")}[dcase]
        if dcase != "one":
            vc.assume(p.t != q.t)       # (a delta of one and the same index is S.One: C06)
        C.CLASS_MODELS["adcgen.sympy_objects:KroneckerDelta"] = lambda ip, a, k: delta \
            if len(a) == 2 and a[0] is p and a[1] is q else (_ for _ in ()).throw(Unsupported("other delta"))
        C.STRUCT_IS["DeltaPQ"] = lambda ip, a, b: a is b
        C.STRUCT_ARITH["ObjSympy"] = lambda ip, opn, a, b: Struct("ObjTimesDelta") \
            if opn == "Mult" and {getattr(a, "cls", None), getattr(b, "cls", None)} == {"ObjSympy", "DeltaPQ"} \
            else (_ for _ in ()).throw(Unsupported("arithmetic on the abstract object"))
        C.STRUCT_ARITH["DeltaPQ"] = C.STRUCT_ARITH["ObjSympy"]
        survivor = {"not-evaluated": None, "p-survives": p, "q-survives": q}[ecase]

        vc.ghost["_survivor"] = survivor
        C.STRUCT_ISINSTANCE["MulV2"] = lambda ip, v, cls: True
        C.STRUCT_ISINSTANCE["Evaluated"] = lambda ip, v, cls: False
        C.STRUCT_METHODS[("Evaluated", "atoms")] = lambda ip, o, a, k: PSet([o.f["left"]])
        C.EXTERNALS["sympy.Pow"] = lambda ip, a, k: Struct("PowV", base=a[0], exp=a[1])
        C.CLASS_MODELS["adcgen.sympy_objects:NonSymmetricTensor"] = lambda ip, a, k: Struct(
            "TensorV2", name=a[0], idx=tuple(a[1]))
        C.CLASS_MODELS["adcgen.expr_container:Expr"] = lambda ip, a, k: Struct("ExprV", of=a[0], kw=dict(k))
        given = vc.choose(2, "target_given") == 1
        target = Struct("Opaque", what="given target indices") if given else None
        vc.ghost["_target"] = target if given else me.f["term"].f["target"]
        vc.ghost["_cases"] = (is_fock, dcase, ecase, p, q, expo, zero)
        return {"self": me, "target": target, "return_sympy": vc.choose(2, "return_sympy") == 1}

    def post(self, vc, a, result):
        is_fock, dcase, ecase, p, q, expo, zero = vc.ghost["_cases"]
        me = a["self"].f
        ok = isinstance(result, tuple) and len(result) == 2
        if not ok:
            return [("returns-the-object-and-the-substitution", False)]
        obj, sub = result
        out = []
        if not a["return_sympy"]:
            w = isinstance(obj, Struct) and obj.cls == "ExprV" and set(obj.f["kw"]) == {"marker", "target_idx"} \
                and obj.f["kw"]["marker"] is me["assm"] and obj.f["kw"]["target_idx"] is vc.ghost["_target"]
            out.append(("an-expression-with-the-assumptions-and-the-target-indices-in-force-is-returned", w))
            obj = obj.f["of"] if w else None
        pairs = list(sub.pairs) if hasattr(sub, "pairs") else list((sub.d or {}).items()) if isinstance(sub, PDict) else None
        replaced = is_fock and dcase == "delta" and ecase != "not-evaluated"
        if not replaced:
            want_obj = zero if (is_fock and dcase == "zero") else me["sympy"]
            out.append(("untouched-(zero-for-an-off-diagonal-block)-and-no-substitution-unless-the-delta-is-evaluated",
                        obj is want_obj and pairs == []))
            return out
        keep, other = (p, q) if ecase == "p-survives" else (q, p)
        good = isinstance(obj, Struct) and obj.cls == "PowV" and isinstance(obj.f["base"], Struct) \
            and obj.f["base"].cls == "TensorV2" and obj.f["base"].f["name"] == "e" \
            and len(obj.f["base"].f["idx"]) == 1 and obj.f["base"].f["idx"][0] is keep
        out.append(("replaced-by-the-orbital-energy-of-the-surviving-index", good))
        out.append(("raised-to-the-power-of-the-fock-matrix-element", good and obj.f["exp"] is expo))
        out.append(("the-other-index-is-substituted-by-the-surviving-one",
                    pairs is not None and len(pairs) == 1 and pairs[0][0] is other and pairs[0][1] is keep))
        return out


# --- Obj.block_diagonalize_fock: only off diagonal blocks of the Fock matrix vanish ---------------------
@register
class ObjBlockDiagonalizeFock(Contract):
    key = "adcgen.expr_container:Obj.block_diagonalize_fock"
    props = ["C13"]
    SPACES = ["oo", "ov", "vo", "vv", "gg", "og", "gv"]

    def setup(self, vc):
        C.EXTERNALS["adcgen.tensor_names:tensor_names"] = Struct("TensorNames", fock="f", orb_energy="e")
        is_fock = vc.choose(2, "is_fock") == 1
        space = self.SPACES[vc.choose(len(self.SPACES), "block")]
        me = Struct("FockObj2", name="f" if is_fock else "X", space=space, sympy=Struct("ObjSympy"),
                    assm=Struct("Opaque", what="assumptions"))
        for f in ("name", "space", "sympy"):
            C.STRUCT_ATTR[("FockObj2", f)] = (lambda f: lambda ip, o: o.f[f])(f)
        C.STRUCT_ATTR[("FockObj2", "assumptions")] = lambda ip, o: PDict({"marker": o.f["assm"]})
        C.CLASS_MODELS["adcgen.expr_container:Expr"] = lambda ip, a, k: Struct("ExprV", of=a[0], kw=dict(k))
        return {"self": me, "return_sympy": vc.choose(2, "return_sympy") == 1}

    def post(self, vc, a, result):
        me = a["self"].f
        out = []
        obj = result
        if not a["return_sympy"]:
            w = isinstance(result, Struct) and result.cls == "ExprV" and set(result.f["kw"]) == {"marker"} \
                and result.f["kw"]["marker"] is me["assm"]
            out.append(("an-expression-with-the-assumptions-of-the-object-is-returned", w))
            obj = result.f["of"] if w else None
        # off diagonal: one occupied and one virtual index (a general index also runs over the
        # orbitals of the diagonal block)
        off_diagonal = me["name"] == "f" and set(me["space"]) == {"o", "v"}
        if off_diagonal:
            out.append(("an-off-diagonal-block-of-the-fock-matrix-vanishes", isinstance(obj, int) and obj == 0))
        else:
            out.append(("everything-else-is-untouched", obj is me["sympy"]))
        return out


# --- Obj.use_explicit_denominators: D^{upper}_{lower}^n = (sum_upper e - sum_lower e)^(-n) -----------------
EORB = z3.Function("orbital_energy", z3.DeclareSort("IdxTokS"), z3.RealSort())
IdxTokS = EORB.domain(0)


@register
class ObjUseExplicitDenominators(Contract):
    key = "adcgen.expr_container:Obj.use_explicit_denominators"
    props = ["C13"]

    def setup(self, vc):
        from spec.exprval import mk_expr, POW
        C.EXTERNALS["adcgen.tensor_names:tensor_names"] = Struct("TensorNames", sym_orb_denom="D", orb_energy="e")
        is_d = vc.choose(2, "is_symbolic_denominator") == 1
        nu, nl = 1 + vc.choose(2, "n_upper"), 1 + vc.choose(2, "n_lower")
        up = tuple(Sym(vc.fresh(f"upper{k}", IdxTokS)) for k in range(nu))
        lo = tuple(Sym(vc.fresh(f"lower{k}", IdxTokS)) for k in range(nl))
        expo = Sym(vc.fresh_int("exponent"))
        listed = vc.choose(2, "listed_in_antisym_tensors") == 1
        tensor = Struct("DTensor", upper=up, lower=lo)
        C.STRUCT_ATTR[("DTensor", "upper")] = lambda ip, o: o.f["upper"]
        C.STRUCT_ATTR[("DTensor", "lower")] = lambda ip, o: o.f["lower"]
        me = Struct("DObj", name="D" if is_d else "X", tensor=tensor, exponent=expo, sympy=Struct("ObjSympy"),
                    anti=("D", "x") if listed else ("x",))
        C.STRUCT_ATTR[("DObj", "name")] = lambda ip, o: o.f["name"]
        C.STRUCT_ATTR[("DObj", "sympy")] = lambda ip, o: o.f["sympy"]
        C.STRUCT_ATTR[("DObj", "base_and_exponent")] = lambda ip, o: (o.f["tensor"], o.f["exponent"])
        C.STRUCT_ATTR[("DObj", "antisym_tensors")] = lambda ip, o: o.f["anti"]
        C.STRUCT_ATTR[("DObj", "assumptions")] = lambda ip, o: PDict({"real": True, "antisym_tensors": o.f["anti"]})

        def nonsym(ip, a, k):
            ok = a[0] == "e" and isinstance(a[1], tuple) and len(a[1]) == 1
            if not ok:
                raise Unsupported("NonSymmetricTensor other than an orbital energy")
            return mk_expr(EORB(a[1][0].t), False)
        C.CLASS_MODELS["adcgen.sympy_objects:NonSymmetricTensor"] = nonsym

        def pow_(ip, a, k):
            from spec.exprval import as_expr
            return mk_expr(POW(as_expr(a[0]).f["val"], term(a[1])), False)
        C.EXTERNALS["sympy.Pow"] = pow_
        C.CLASS_MODELS["adcgen.expr_container:Expr"] = lambda ip, a, k: Struct("ExprV", of=a[0], kw=dict(k))
        vc.ghost["_d"] = (is_d, up, lo, expo, listed)
        return {"self": me, "return_sympy": vc.choose(2, "return_sympy") == 1}

    def post(self, vc, a, result):
        from spec.exprval import as_expr, POW
        is_d, up, lo, expo, listed = vc.ghost["_d"]
        me = a["self"].f
        out = []
        obj = result
        if not a["return_sympy"]:
            w = isinstance(result, Struct) and result.cls == "ExprV" and result.f["kw"].get("real") is True \
                and set(result.f["kw"]) == {"real", "antisym_tensors"} \
                and tuple(result.f["kw"]["antisym_tensors"]) == ("x",)
            out.append(("an-expression-with-the-assumptions-minus-the-symbolic-denominator-is-returned", w))
            obj = result.f["of"] if w else None
        if not is_d:
            return out + [("other-objects-are-untouched", obj is me["sympy"])]
        ok = isinstance(obj, Struct) and obj.cls == "Expr"
        den = z3.Sum([EORB(s.t) for s in up]) - z3.Sum([EORB(s.t) for s in lo])
        return out + [("the-symbolic-denominator-becomes-(sum-of-upper-minus-sum-of-lower-orbital-energies)^(-exponent)",
                       as_expr(obj).f["val"] == POW(den, -term(expo)) if ok else False)]
