"""C05 - ISR properties and transition moments (series level).  Contracts on
adcgen.properties:Properties.operator / expec_block_contribution /
trans_moment_space."""
import z3
from pyvc import contract as C
from pyvc.contract import Contract, LoopContract, register
from pyvc.values import (Struct, Sym, SymSeq, PList, PDict, Inst, term, wrap, zand, zor,
                         znot, zeq, Unsupported)
from pyvc.vc import RaiseEx
from spec.exprval import mk_expr, as_expr, real
from spec.series import (AtomSort, RulesSort, NO_RULES, VEV, atom_nc, mk_nc, new_stamp,
                         stamps_of, WORDVAL)
from spec import gsmodel as G
from spec import isrmodel as M
import contracts.c02 as c02
import contracts.c03 as c03
import contracts.c04 as c04

ASSUMPTIONS = c04.ASSUMPTIONS + [
    "Operators.operator(n_c, n_a) is the operator string d/(n_c! n_a!) a+... a... over fresh general indices (assumed contract)",
    "GroundState.expectation_value(n, N) is the n-th order ground state expectation value of that operator (assumed contract)",
]
TRUSTED = c04.TRUSTED
PR = "adcgen.properties:Properties"
OPD = z3.Function("OPERATOR", z3.IntSort(), z3.IntSort(), AtomSort)
GSEXP = z3.Function("GS_EXPECTATION", z3.IntSort(), z3.IntSort(), z3.RealSort())


@register
class OperatorsOperator(Contract):
    key = "adcgen.operators:Operators.operator"
    props = []
    assumed = True
    note = "pref * d * creation/annihilation string over fresh general indices, no rules"

    def apply(self, vc, a):
        at = OPD(term(a["n_create"]), term(a["n_annihilate"]))
        return (atom_nc(at, frozenset([("operator", (str(at),), True)])), None)


@register
class GsExpectationValue(Contract):
    key = c02.GS + ".expectation_value"
    props = []
    assumed = True
    note = "n-th order ground state expectation value (series glue not yet under contract)"

    def apply(self, vc, a):
        if vc.decide(c04.bad_order(a["order"])):
            raise RaiseEx("Inputerror")
        e = mk_expr(GSEXP(term(a["order"]), term(a["n_particles"])), False)
        z = vc.fresh_bool("gsexp_zero")
        vc.assume(z3.Implies(z, e.f["val"] == 0))
        e.f["zero"] = Sym(z)
        e.f["stamps"] = frozenset([("gs_expec", (str(term(a["order"])),), True)])
        return e


def new_props(vc, variant="pp", r_variant=None):
    l_isr = c04.new_isr(vc, variant)
    gs = l_isr.attrs["gs"]
    r_isr = Inst(c04.ISR, dict(l_isr.attrs))
    if r_variant is not None and r_variant != variant:
        # mixed left / right variants (one ground state, two sets of intermediate states)
        r_isr.attrs["variant"] = r_variant
        r_isr.attrs["min_space"] = PList(list(c04.VARIANTS[r_variant]))
    l_isr.attrs["_tag"] = "L"
    r_isr.attrs["_tag"] = "R"
    return Inst(PR, {"l_isr": l_isr, "r_isr": r_isr, "gs": gs, "h": gs.attrs["h"]})


def op_spec(k, nc, na, sub):
    d = z3.If(k == 0, WORDVAL(OPD(nc, na)), z3.RealVal(0))
    e = z3.If(z3.And(sub, nc == na), GSEXP(k, nc), z3.RealVal(0))
    return d - e


@register
class PropOperator(Contract):
    key = PR + ".operator"
    props = ["C05"]

    def setup(self, vc):
        return {"self": new_props(vc), "order": Sym(vc.fresh_int("order")),
                "n_create": Sym(vc.fresh_int("n_create")),
                "n_annihilate": Sym(vc.fresh_int("n_annihilate")),
                "subtract_gs": Sym(vc.fresh_bool("subtract_gs"))}

    def raises(self, vc, a):
        return [("Inputerror", c04.bad_order(a["order"]))]

    def fresh_result(self, vc, a):
        """callers' view: (operator, rules) - decided by the same case split"""
        raise NotImplementedError

    def apply(self, vc, a):
        for exc, when in self.raises(vc, a):
            if vc.decide(when):
                raise RaiseEx(exc)
        k, nc, na = a["order"], a["n_create"], a["n_annihilate"]
        sub = a.get("subtract_gs", True)
        if vc.decide(zeq(k, 0)):
            d = atom_nc(OPD(term(nc), term(na)), frozenset([("operator", ("d",), True)]))
        else:
            d = mk_expr(0, True, singleton="Zero")
        if vc.decide(zand(vc.ip.truth_term(sub), zeq(nc, na))):
            e0 = C.REGISTRY[c02.GS + ".expectation_value"].apply(
                vc, {"self": None, "order": k, "n_particles": nc})
            from pyvc.builtins import arith
            return (arith(vc.ip, "Sub", d, e0), Struct("Rules", t=NO_RULES))
        return (d, Struct("Rules", t=NO_RULES))

    def post(self, vc, a, result):
        if not (isinstance(result, tuple) and len(result) == 2):
            return [("returns-(operator, rules)", False)]
        op, rules = result
        spec = op_spec(term(a["order"]), term(a["n_create"]), term(a["n_annihilate"]),
                       term(a["subtract_gs"]))
        return [("is-order-0-operator-minus-order-n-ground-state-expectation-value",
                 c03.nc_value_with_scalar(op) == spec),
                ("no-block-rules", M.rules_term(rules) == NO_RULES)]


def op_vev(b, nc, na, sub, left, right):
    """<left| op^(b) |right> for the (shifted) operator of order b; `right`
    may be None (Psi^(0) = 1)"""
    w = (left,) + (() if right is None else (right,))
    wd = (left, OPD(nc, na)) + (() if right is None else (right,))
    d = z3.If(b == 0, VEV(NO_RULES, wd), z3.RealVal(0))
    e = z3.If(z3.And(sub, nc == na), GSEXP(b, nc), z3.RealVal(0))
    return d - e * VEV(NO_RULES, w)


# --- expec_block_contribution ------------------------------------------------------
class _EOuter(M.NormOuterLoop):
    inner_len = 3
    tag = "expec_block"
    scratch = ("norm_term", "norm", "orders_d", "expec", "term", "op", "rules", "i1")


class _EInner(M.InnerSumLoop):
    acc_var = "expec"
    inner_len = 3
    tag = "expec_block"
    scratch = ("term", "op", "rules", "i1")

    def rest(self, frame):
        return frame["norm_term"][1]

    def term_spec(self, vc, frame, parts):
        a, b, c = parts
        block = frame["block"]
        n = term(frame["n_particles"])
        sub = term(frame["subtract_gs"])
        left = M.atom_of("ISTATE", "L", block[0], "bra", frame["left_idx"])(a)
        right = M.atom_of("ISTATE", "R", block[1], "ket", frame["right_idx"])(c)
        lp = M.sqrt_class_factor(vc, block[0])
        rp = M.sqrt_class_factor(vc, block[1])
        x = z3.Real(f"AMPVEC[left|{frame['left_idx']}]")
        y = z3.Real(f"AMPVEC[right|{frame['right_idx']}]")
        return lp * rp * x * y * op_vev(b, n, n, sub, left, right)


@register
class ExpecBlockContribution(Contract):
    key = PR + ".expec_block_contribution"
    props = ["C05"]
    loops = {0: _EOuter(), 1: _EInner()}
    BLOCKS = ["ph,ph", "ph,pphh", "pphh,ph", "pphh,pphh", "h,phh", "ph"]

    def setup(self, vc):
        block = self.BLOCKS[vc.choose(len(self.BLOCKS), "block")]
        return {"self": new_props(vc), "order": Sym(vc.fresh_int("order")), "block": block,
                "n_particles": Sym(vc.fresh_int("n_particles")),
                "subtract_gs": Sym(vc.fresh_bool("subtract_gs"))}

    def raises(self, vc, a):
        return [("Inputerror", zor(c04.bad_order(a["order"]), len(a["block"].split(",")) != 2))]

    def post(self, vc, a, result):
        n = term(a["order"])
        O = M.fn("OUTER[expec_block]", z3.IntSort(), z3.IntSort(), z3.RealSort())
        return [("is-X-<I|d|J>-Y-with-one-1/sqrt(n_o!n_v!)-per-amplitude-vector",
                 as_expr(result).f["val"] == O(n, n + 1))]


# --- trans_moment_space ----------------------------------------------------------------
def psi_table_model(ip, frame, node):
    return Struct("PsiTable", n=term(frame["order"]))


def psi_table_subscript(ip, obj, idx):
    vc = ip.vc
    if not vc.decide(zand(term(idx) >= 0, term(idx) <= obj.f["n"])):
        raise RaiseEx("KeyError", "order outside the table")
    if vc.decide(zeq(idx, 0)):
        return mk_expr(1, False, singleton="One")
    return atom_nc(c02.PSI(term(idx), 1), frozenset([("psi-table", (str(term(idx)),), True)]))


C.STRUCT_SUBSCRIPT["PsiTable"] = psi_table_subscript


class _TOuter(M.NormOuterLoop):
    inner_len = 3
    tag = "trans_moment"
    scratch = ("norm_term", "norm", "orders_d", "trans_mom", "term", "op", "rules", "i1")


class _TInner(M.InnerSumLoop):
    acc_var = "trans_mom"
    inner_len = 3
    tag = "trans_moment"
    scratch = ("term", "op", "rules", "i1")

    def rest(self, frame):
        return frame["norm_term"][1]

    def term_spec(self, vc, frame, parts):
        a, b, c = parts
        st = vc.ghost["_tm"]
        left = M.atom_of("ISTATE", st["tag"], st["space"], "bra", frame["idx"])(a)
        x = z3.Real(f"AMPVEC[left|{frame['idx']}]")
        pref = M.sqrt_class_factor(vc, st["space"])
        nc, na, sub = st["nc"], st["na"], st["sub"]
        with_psi = op_vev(b, nc, na, sub, left, c02.PSI(c, 1))
        without = op_vev(b, nc, na, sub, left, None)
        return pref * x * z3.If(c == 0, without, with_psi)


@register
class TransMomentSpace(Contract):
    key = PR + ".trans_moment_space"
    props = ["C05"]
    loops = {0: _TOuter(), 1: _TInner()}
    comprehensions = {"self.gs.psi(order=o, braket='ket') for o in range(order + 1)": psi_table_model}
    # (space, n_create, n_annihilate, lr_isr, ADC variant); the non PP variants have classes with
    # different numbers of occupied and virtual indices (n_o! != n_v!)
    CASES = [("ph", None, None, "left", "pp"), ("pphh", None, None, "left", "pp"), ("ph", 1, 1, "right", "pp"),
             ("ph", 2, None, "left", "pp"), ("ph", None, 1, "left", "pp"), ("p,h", None, None, "left", "pp"),
             ("phh", None, None, "left", "ip"), ("pph", None, None, "right", "ea"),
             ("pphhh", 0, 1, "left", "ip"), ("hh", None, None, "left", "dip"),
             # mixed variants "left/right": the default operator string is the one of the variant
             # whose intermediate states are used (lr_isr)
             ("h", None, None, "right", "pp/ip"), ("ph", None, None, "right", "ip/pp"),
             ("ph", None, None, "left", "pp/ea"), ("pph", None, None, "right", "ip/ea"),
             ("hh", None, 2, "right", "pp/dip")]

    def setup(self, vc):
        space, nc, na, lr, variant = self.CASES[vc.choose(len(self.CASES), "case")]
        lvar, _, rvar = variant.partition("/")
        variant = (rvar or lvar) if lr == "right" else lvar
        a = {"self": new_props(vc, lvar, rvar or None), "order": Sym(vc.fresh_int("order")), "space": space,
             "n_create": nc, "n_annihilate": na, "lr_isr": lr,
             "subtract_gs": Sym(vc.fresh_bool("subtract_gs"))}
        # default operator string: (#p, #h) of the minimal space of the variant
        if nc is None and na is None:
            # documented default: the operator string of the minimal space of the variant
            # ('ca' for PP, 'a' for IP, 'c' for EA, 'aa' for DIP)
            nc2, na2 = {"pp": (1, 1), "ip": (0, 1), "ea": (1, 0), "dip": (0, 2), "dea": (2, 0)}[variant]
        else:
            nc2, na2 = (nc or 0), (na or 0)
        vc.ghost["_tm"] = {"space": space, "nc": z3.IntVal(nc2), "na": z3.IntVal(na2),
                           "sub": term(a["subtract_gs"]), "tag": "L" if lr == "left" else "R"}
        return a

    def raises(self, vc, a):
        return [("Inputerror", zor(c04.bad_order(a["order"]), "," in a["space"]))]

    def post(self, vc, a, result):
        n = term(a["order"])
        O = M.fn("OUTER[trans_moment]", z3.IntSort(), z3.IntSort(), z3.RealSort())
        return [("is-X-<I|d|Psi0>-with-1/sqrt(n_o!n_v!)-and-default-operator-string",
                 as_expr(result).f["val"] == O(n, n + 1))]


# --- expectation_value: summation over the blocks of the ADC(n) matrix ------------------------
# ADC(n): the k-th excitation class above the minimal one is treated through order n - k,
# the block (k, l) through order n - k - l.  Proved for the enumerated ADC orders 0..4 (the
# block tables are executed concretely: SecularMatrix.block_order / max_ptorder_spaces are
# inlined), every perturbation order selection and left / right variants of the same kind.
EXPEC = {}
C.INLINE.add(c03.SM + ".block_order")
C.INLINE.add(c03.SM + ".max_ptorder_spaces")


def _expec_value(block, o, npart, sub):
    key = ",".join(block) if isinstance(block, tuple) else block
    f = M.fn(f"EXPEC[{key}]", z3.IntSort(), z3.IntSort(), z3.BoolSort(), z3.RealSort())
    return f(term(o) if not isinstance(o, int) else z3.IntVal(o), term(npart), term(sub))


def _expec_callers_view(self, vc, a):
    e = mk_expr(_expec_value(a["block"], a["order"], a["n_particles"], a["subtract_gs"]), False)
    e.f["stamps"] = frozenset()
    return e


ExpecBlockContribution.apply = _expec_callers_view


def _class_space(min_space, k):
    return "p" * k + min_space + "h" * k


@register
class PropertiesExpectationValue(Contract):
    key = PR + ".expectation_value"
    props = ["C05"]
    CASES = [(n, sel, var) for n in range(0, 5) for sel in ("all", "zero", "highest", "beyond")
             for var in ("pp", "ip", "ip/ea")]
    split_first_choice = len(CASES)

    def setup(self, vc):
        n, sel, var = self.CASES[vc.choose(len(self.CASES), "case")]
        order = {"all": None, "zero": 0, "highest": n, "beyond": n + 1}[sel]
        lv, rv = var.split("/") if "/" in var else (var, var)
        props = new_props(vc, lv)
        if rv != lv:
            # different ADC variants for the left and the right states
            props.attrs["r_isr"] = Inst(c04.ISR, dict(c04.new_isr(vc, rv).attrs, _tag="R"))
        for side in ("l", "r"):
            props.attrs[f"{side}_m"] = Inst(c03.SM, {"isr": props.attrs[f"{side}_isr"]})
        vc.ghost["_pe"] = {"n": n, "order": order, "min": (c04.VARIANTS[lv][0], c04.VARIANTS[rv][0])}
        return {"self": props, "adc_order": n, "n_particles": Sym(vc.fresh_int("n_particles")),
                "order": order, "subtract_gs": Sym(vc.fresh_bool("subtract_gs"))}

    def post(self, vc, a, result):
        st = vc.ghost["_pe"]
        n, order, ms = st["n"], st["order"], st["min"]
        total = z3.RealVal(0)
        for ka in range(n // 2 + 1):
            for kb in range(n // 2 + 1):
                mx = n - ka - kb
                block = (_class_space(ms[0], ka), _class_space(ms[1], kb))
                orders = range(mx + 1) if order is None else ([order] if mx >= order else [])
                for o in orders:
                    total = total + _expec_value(block, o, a["n_particles"], a["subtract_gs"])
        val = z3.RealVal(result) if isinstance(result, int) else as_expr(result).f["val"]
        return [("is-the-sum-of-the-block-contributions-of-the-ADC(n)-matrix-through-their-orders",
                 val == total)]
