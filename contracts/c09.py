"""C09 - Kronecker-delta evaluation.  Contracts on
adcgen.sympy_objects:KroneckerDelta.preferred_and_killable,
.indices_contain_equal_information and adcgen.func:evaluate_deltas."""
import z3
from pyvc.contract import Contract, register
from pyvc.values import Struct, Sym, term, zand, zor, znot, zeq
from spec.idx import (new_index, range_subset, range_equal, range_disjoint,
                      IdxSort)
import contracts.c06 as c06        # noqa: F401  KroneckerDelta.eval / _eval_power (props C06, C09)


def delta_struct(i, j):
    return Struct("KroneckerDelta", args=(i, j))


@register
class PreferredAndKillable(Contract):
    key = "adcgen.sympy_objects:KroneckerDelta.preferred_and_killable"
    props = ["C09"]

    def setup(self, vc):
        i, j = new_index(vc, "i"), new_index(vc, "j")
        return {"self": delta_struct(i, j), "_i": i, "_j": j}

    def pre(self, vc, a):
        # KroneckerDelta.eval returns 0 for disjoint ranges and 1 for identical
        # indices: such objects do not exist.
        return [("nonvanishing", znot(range_disjoint(a["_i"], a["_j"])))]

    def fresh_result(self, vc, a):
        i, j = a["self"].f["args"]
        c = vc.choose(3, "pk")
        return [None, (i, j), (j, i)][c]

    def post(self, vc, a, result):
        i, j = a["self"].f["args"]
        if result is None:
            # "left in place" only when neither index carries at least as
            # much information as the other
            return [("none-only-if-incomparable",
                     zand(znot(range_subset(i, j)), znot(range_subset(j, i))))]
        if not isinstance(result, tuple) or len(result) != 2:
            return [("shape", False)]
        p, k = result
        return [
            ("is-the-index-pair",
             zor(zand(term(p) == term(i), term(k) == term(j)),
                 zand(term(p) == term(j), term(k) == term(i)))),
            ("preferred-carries-at-least-as-much-information",
             range_subset(p, k)),
        ]


@register
class EqualInformation(Contract):
    key = "adcgen.sympy_objects:KroneckerDelta.indices_contain_equal_information"
    props = ["C09"]

    def setup(self, vc):
        i, j = new_index(vc, "i"), new_index(vc, "j")
        return {"self": delta_struct(i, j)}

    def fresh_result(self, vc, a):
        return Sym(vc.fresh_bool("eqinfo"))

    def post(self, vc, a, result):
        i, j = a["self"].f["args"]
        return [("iff-ranges-equal", zeq(result, range_equal(i, j)))]


# --- evaluate_deltas: side conditions of the delta evaluation lemma -----------------------
# Lemma (paper, TRUSTED): for a product  delta_{ab} * R  in which `a` is summed over its
# range, is not a target index, and range(b) is a subset of range(a):
#       sum_a delta_{ab} R(a, ...) = R(b, ...)
# (an index restricted to the smaller range selects exactly one element of the larger
# range).  The obligations below establish the premises at every substitution the real
# function performs, for symbolic spaces / spins of all indices, with the target indices
# either given or taken from the summation convention, and that recursive calls work with
# the same target indices.
from pyvc import contract as C
from pyvc.values import PList, PSet, Unsupported
from pyvc.vc import RaiseEx

ED = "adcgen.func:evaluate_deltas"
ASSUMPTIONS = [
    "sympy: Mul.args lists the factors; obj.atoms(Index) is the set of indices of the object; "
    "Mul.subs(a, b) replaces a by b in every factor, re-evaluating deltas (delta_bb = 1, "
    "delta between disjoint ranges = 0)",
    "get_symbols(list of Index) returns the list unchanged",
]
TRUSTED = ["delta evaluation lemma: sum_a delta_ab R(a) = R(b) for range(b) subset range(a), a not a target index"]


def tensor_v(name, idx):
    return Struct("TensorV", name=name, idx=tuple(idx))


def obj_indices(o):
    return list(o.f["args"]) if o.cls == "KroneckerDelta" else list(o.f["idx"])


def _same(a, b):
    return z3.eq(term(a), term(b))


def _distinct_syms(items):
    out = []
    for s in items:
        if not any(_same(s, o) for o in out):
            out.append(s)
    return out


C.STRUCT_ATTR[("MulV", "args")] = lambda ip, o: tuple(o.f["factors"])
C.STRUCT_ATTR[("AddV", "args")] = lambda ip, o: tuple(o.f["terms"])
C.STRUCT_ISINSTANCE["AddV"] = lambda ip, v, cls: str(getattr(cls, "dotted", getattr(cls, "key", ""))).endswith("Add")


def _addv_func(ip, o):
    from pyvc.values import PyFunc
    return PyFunc(lambda ip_, args, kwargs: Struct("AddV", terms=tuple(args)), "Add")


C.STRUCT_ATTR[("AddV", "func")] = _addv_func
C.STRUCT_ISINSTANCE["MulV"] = lambda ip, v, cls: str(getattr(cls, "dotted", getattr(cls, "key", ""))).endswith("Mul")
C.STRUCT_ISINSTANCE["TensorV"] = lambda ip, v, cls: False
C.STRUCT_METHODS[("KroneckerDelta", "atoms")] = lambda ip, o, a, k: PSet(_distinct_syms(obj_indices(o)))
C.STRUCT_METHODS[("TensorV", "atoms")] = lambda ip, o, a, k: PSet(_distinct_syms(obj_indices(o)))


def _pk_attr(ip, o):
    con = C.REGISTRY[PreferredAndKillable.key]
    i, j = o.f["args"]
    return con.apply(ip.vc, {"self": o, "_i": i, "_j": j})


def _eq_attr(ip, o):
    return C.REGISTRY[EqualInformation.key].apply(ip.vc, {"self": o})


C.STRUCT_ATTR[("KroneckerDelta", "preferred_and_killable")] = _pk_attr
C.STRUCT_ATTR[("KroneckerDelta", "indices_contain_equal_information")] = _eq_attr


def mulv_subs(ip, obj, args, kwargs):
    """expr.subs(old, new): the premises of the lemma are obligations"""
    vc = ip.vc
    old, new = args[0], args[1]
    st = vc.ghost["_ed"]
    vc.check("subs#removed-index-is-not-a-target-index",
             z3.And(*[term(old) != term(t) for t in st["targets"]]) if st["targets"] else True)
    vc.check("subs#replacing-index-carries-at-least-as-much-information",
             range_subset(new, old))
    on_delta = [zor(zand(term(d.f["args"][0]) == term(old), term(d.f["args"][1]) == term(new)),
                    zand(term(d.f["args"][1]) == term(old), term(d.f["args"][0]) == term(new)))
                for d in obj.f["factors"] if d.cls == "KroneckerDelta"]
    vc.check("subs#the-pair-is-linked-by-a-delta-of-the-term", zor(*on_delta) if on_delta else False)
    out = []
    for o in obj.f["factors"]:
        idx = [new if _same(s, old) else s for s in obj_indices(o)]
        if o.cls == "KroneckerDelta":
            if _same(idx[0], idx[1]):
                continue                    # delta_bb = 1
            if vc.decide(range_disjoint(idx[0], idx[1])):
                return 0                    # the term vanishes
            out.append(delta_struct(idx[0], idx[1]))
        else:
            out.append(tensor_v(o.f["name"], idx))
    st["substitutions"] = st.get("substitutions", 0) + 1
    return Struct("MulV", factors=out)


C.STRUCT_METHODS[("MulV", "subs")] = mulv_subs


@register
class GetSymbolsAssumed(Contract):
    key = "adcgen.indices:get_symbols"
    props = []
    assumed = True
    note = "a list of Index objects is returned unchanged"

    def apply(self, vc, a):
        v = a["indices"]
        if isinstance(v, (PList, tuple)) or v == []:
            return v
        raise Unsupported("get_symbols of names")


def einstein_targets(objs):
    """indices that occur on exactly one object (summation convention)"""
    syms = _distinct_syms([s for o in objs for s in obj_indices(o)])
    return [s for s in syms if sum(1 for o in objs if any(_same(s, x) for x in obj_indices(o))) == 1]


@register
class EvaluateDeltas(Contract):
    key = ED
    props = ["C09"]
    # index sharing patterns (distinct letters = distinct indices); d: delta, other: tensor
    SHAPES = [
        [("d", "xy"), ("X", "x"), ("Y", "y")],
        [("d", "xy"), ("X", "xy")],
        [("d", "xy"), ("X", "x")],
        [("d", "tx"), ("d", "xy"), ("X", "x"), ("Y", "y")],
        [("d", "xy"), ("d", "tx"), ("X", "x"), ("Y", "y")],
        [("d", "tx"), ("d", "xy"), ("X", "xy")],
        [("d", "xy"), ("d", "yz"), ("X", "x"), ("Z", "z")],
        [("d", "xy"), ("d", "zw"), ("X", "xz"), ("Y", "yw")],
        [("d", "xy"), ("d", "yz"), ("d", "zw"), ("X", "xw")],
        [("X", "xy")],
    ]
    split_first_choice = len(SHAPES) + 2

    def setup(self, vc):
        which = vc.choose(len(self.SHAPES) + 2, "shape")
        if which >= len(self.SHAPES):
            return self.setup_sum(vc, which - len(self.SHAPES))
        shape = self.SHAPES[which]
        letters = sorted({c for _k, nm in shape for c in nm})
        idx = {c: new_index(vc, c) for c in letters}
        if len(letters) > 1:
            vc.assume(z3.Distinct(*[idx[c].t for c in letters]))
        objs = []
        for kind, nm in shape:
            if kind == "d":
                i, j = idx[nm[0]], idx[nm[1]]
                vc.assume(znot(range_disjoint(i, j)))     # such a delta does not exist
                objs.append(delta_struct(i, j))
            else:
                objs.append(tensor_v(kind, [idx[c] for c in nm]))
        mode = vc.choose(3, "targets")
        if mode == 0:
            given, targets = None, einstein_targets(objs)
        else:
            # explicit targets: all / none of the indices that the convention
            # would sum (every explicit choice contains the single occurrences
            # or not - both are admissible inputs)
            ein = einstein_targets(objs)
            targets = ein if mode == 1 else ein + [idx[letters[0]]] if not any(_same(idx[letters[0]], t) for t in ein) else ein
            given = PList(list(targets))
        vc.ghost["_ed"] = {"targets": targets, "objs": objs}
        return {"expr": Struct("MulV", factors=objs), "target_idx": given}

    def setup_sum(self, vc, mode):
        """a sum of two products: every term is evaluated with the target indices of the call"""
        x, y, z = (new_index(vc, c) for c in "xyz")
        vc.assume(z3.Distinct(x.t, y.t, z.t))
        vc.assume(znot(range_disjoint(x, y)))
        t1 = Struct("MulV", factors=[delta_struct(x, y), tensor_v("X", [x]), tensor_v("Y", [y])])
        t2 = Struct("MulV", factors=[tensor_v("Z", [x, z])])
        given = None if mode == 0 else PList([x, y])
        vc.ghost["_ed"] = {"targets": [], "objs": [], "sum": True, "given": given, "terms": [t1, t2]}
        return {"expr": Struct("AddV", terms=(t1, t2)), "target_idx": given}

    def pre(self, vc, a):
        if not a.get("_callsite"):
            return []
        st = vc.ghost["_ed"]
        got = a.get("target_idx")
        if st.get("sum"):
            # the terms of a sum are evaluated with the target indices of the call itself
            ok = any(a["expr"] is t for t in st["terms"]) and \
                ((got is None and st["given"] is None) or got is st["given"])
            return [("terms-of-a-sum-are-evaluated-with-the-target-indices-of-the-call", bool(ok))]
        # recursive call: the same target indices as this invocation
        if not isinstance(got, (PList, tuple)):
            return [("recursion-works-with-the-same-target-indices", False)]
        items = got.items if isinstance(got, PList) else list(got)
        same = len(_distinct_syms(items)) == len(st["targets"]) and \
            all(any(_same(x, t) for t in st["targets"]) for x in items)
        return [("recursion-works-with-the-same-target-indices", same)]

    def fresh_result(self, vc, a):
        return Struct("Evaluated", of=a["expr"])

    def post(self, vc, a, result):
        st = vc.ghost["_ed"]
        if st.get("sum"):
            ok = isinstance(result, Struct) and result.cls == "AddV" and len(result.f["terms"]) == 2 and \
                all(isinstance(t, Struct) and t.cls == "Evaluated" and t.f["of"] is s_
                    for t, s_ in zip(result.f["terms"], st["terms"]))
            return [("sum-of-the-evaluated-terms-in-order", bool(ok))]
        ok = isinstance(result, Struct) and result.cls in ("MulV", "Evaluated") or result == 0
        return [("returns-the-(partly)-evaluated-product", bool(ok))]
