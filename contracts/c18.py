"""C18 - print/import round trip.  The tensor kind is a function of the tensor
name ("kind invariant"): one obligation per tensor constructor call site of
adcgen, generated from the AST of the working tree on every run, against the
class decision of the importer (read from the AST of import_tensor)."""
import ast
import z3
from pyvc import contract as C
from pyvc.contract import lemma
from pyvc.source import SourceTable

ASSUMPTIONS = [
    "sympy's latex printer grammar for Add/Mul/Pow/Rational/sqrt/NO (fractions, brackets, space separated factors) - the term / fraction splitter of the importer is only covered by the bounded stand-in latex.roundtrip",
    "constructor call sites whose name argument is not built from a tensor_names field (names taken from existing objects, user supplied names) are not tracked by the kind invariant",
    "index and tensor _latex printers / import_indices / import_tensor string handling: bounded stand-in only (string obligations are outside the reach of the installed solvers within the time budget)",
]
TRUSTED = []
TENSOR_CLASSES = ("AntiSymmetricTensor", "SymmetricTensor", "Amplitude", "NonSymmetricTensor")
AMPLITUDE_FIELDS = {"gs_amplitude", "left_adc_amplitude", "right_adc_amplitude"}


def field_of(node):
    """tensor_names field a name expression is built from (or None)"""
    if isinstance(node, ast.Attribute) and isinstance(node.value, ast.Name) and \
            node.value.id == "tensor_names":
        return node.attr
    if isinstance(node, ast.JoinedStr) and node.values and \
            isinstance(node.values[0], ast.FormattedValue):
        return field_of(node.values[0].value)
    if isinstance(node, ast.BinOp) and isinstance(node.op, ast.Add):
        return field_of(node.left)
    if isinstance(node, ast.Call) and isinstance(node.func, ast.Name) and node.func.id == "getattr" \
            and isinstance(node.args[0], ast.Name) and node.args[0].id == "tensor_names":
        return "<dynamic-adc-amplitude>"
    return None


def importer_table(src):
    """fields for which the importer builds a SymmetricTensor, and whether
    amplitudes are decided by is_adc_amplitude / is_t_amplitude"""
    node = src.get("adcgen.func:import_from_sympy_latex.import_tensor")
    sym_fields, amp_by_predicates = set(), False
    if node is None:
        return None, False
    for sub in ast.walk(node):
        if not isinstance(sub, ast.If):
            continue
        builds = [c.func.id for st in sub.body for c in ast.walk(st)
                  if isinstance(c, ast.Call) and isinstance(c.func, ast.Name)
                  and c.func.id in TENSOR_CLASSES]
        test = ast.unparse(sub.test)
        if "SymmetricTensor" in builds and "AntiSymmetricTensor" not in builds:
            for n in ast.walk(sub.test):
                f = field_of(n)
                if f:
                    sym_fields.add(f)
        if "Amplitude" in builds and "is_adc_amplitude" in test and "is_t_amplitude" in test:
            amp_by_predicates = True
    return sym_fields, amp_by_predicates


def expected_kind(field, sym_fields):
    if field in AMPLITUDE_FIELDS or field == "<dynamic-adc-amplitude>":
        return "Amplitude"
    if field in sym_fields:
        return "SymmetricTensor"
    return "AntiSymmetricTensor"


def call_sites(src):
    for mname, mi in src.modules.items():
        for node in ast.walk(mi.tree):
            if isinstance(node, ast.Call):
                fn = node.func
                name = fn.id if isinstance(fn, ast.Name) else (fn.attr if isinstance(fn, ast.Attribute) else None)
                if name in TENSOR_CLASSES and node.args:
                    yield mname, node.lineno, name, node.args[0], node


@lemma("C18", "kind-invariant")
def kind_invariant():
    src = SourceTable()
    sym_fields, amp_pred = importer_table(src)
    out = [("importer-decides-amplitudes-by-the-name-predicates", z3.BoolVal(bool(amp_pred))),
           ("importer-table-found", z3.BoolVal(sym_fields is not None))]
    if sym_fields is None:
        return out
    n = 0
    seen = {}
    for mname, line, cls, arg, node in call_sites(src):
        if mname == "adcgen.func":
            continue          # the importer itself
        f = field_of(arg)
        if f is None:
            continue
        if cls == "NonSymmetricTensor":
            continue          # one index group: always imported as NonSymmetricTensor
        key = f"{mname}:{f}:{cls}"
        seen[key] = seen.get(key, 0) + 1
        n += 1
        out.append((f"kind@{mname}#{f}-is-built-as-{cls}#{seen[key]}",
                    z3.BoolVal(expected_kind(f, sym_fields) == cls)))
    out.append(("constructor-call-sites-found", z3.BoolVal(n >= 10)))
    return out


# --- the printers (encode side of the round trip): fixed text templates ---------------------
# The importer splits a tensor text at "^{", "}_{" and the closing braces; the printers have
# to emit exactly  {name^{upper}_{lower}}  /  {name_{indices}}  /  \delta_{i j}  and an
# index  name[_{\alpha|\beta}]  - also for empty index groups.  Names and index names are
# opaque holes (arbitrary strings).
from pyvc.contract import Contract, register
from pyvc.values import Struct, Sym, PList, term

ASSUMPTIONS[2] = ("import_indices / import_tensor string handling (decode side): bounded stand-in only "
                  "(string obligations over parsing code are outside the reach of the installed solvers "
                  "within the time budget)")


def _s(v):
    return z3.StringVal(v) if isinstance(v, str) else term(v)


def _cat(*parts):
    ts = [_s(p) for p in parts if not (isinstance(p, str) and p == "")]
    if not ts:
        return z3.StringVal("")
    return ts[0] if len(ts) == 1 else z3.Concat(*ts)


def index_tok(k):
    return Struct("IndexTok", text=Sym(z3.String(f"index_text{k}")))


C.STRUCT_METHODS[("IndexTok", "_latex")] = lambda ip, o, a, k: o.f["text"]


class _TensorLatex(Contract):
    props = ["C18"]
    SHAPES = [(u, lo) for u in range(0, 3) for lo in range(0, 3)]

    def setup(self, vc):
        nu, nl = self.SHAPES[vc.choose(len(self.SHAPES), "rank")]
        up = tuple(index_tok(k) for k in range(nu))
        lo = tuple(index_tok(10 + k) for k in range(nl))
        sym = Sym(z3.String("tensor_name"))
        return {"self": Struct("TensorTok", symbol=sym, args=(sym, up, lo), upper=up, lower=lo),
                "printer": Struct("Printer")}

    def post(self, vc, a, result):
        me = a["self"].f
        up = _cat(*[i.f["text"] for i in me["upper"]])
        lo = _cat(*[i.f["text"] for i in me["lower"]])
        return [("text-is-{name^{upper}_{lower}}-also-for-empty-index-groups",
                 _s(result) == _cat("{", me["symbol"], "^{", up, "}_{", lo, "}}"))]


@register
class AntiSymLatex(_TensorLatex):
    key = "adcgen.sympy_objects:AntiSymmetricTensor._latex"


@register
class NonSymLatex(Contract):
    key = "adcgen.sympy_objects:NonSymmetricTensor._latex"
    props = ["C18"]

    def setup(self, vc):
        n = vc.choose(4, "rank")
        idx = tuple(index_tok(k) for k in range(n))
        sym = Sym(z3.String("tensor_name"))
        return {"self": Struct("TensorTok", symbol=sym, args=(sym, idx), indices=idx),
                "printer": Struct("Printer")}

    def post(self, vc, a, result):
        me = a["self"].f
        return [("text-is-{name_{indices}}",
                 _s(result) == _cat("{", me["symbol"], "_{", _cat(*[i.f["text"] for i in me["indices"]]), "}}"))]


@register
class DeltaLatex(Contract):
    key = "adcgen.sympy_objects:KroneckerDelta._latex"
    props = ["C18"]

    def setup(self, vc):
        i, j = index_tok(0), index_tok(1)
        return {"self": Struct("TensorTok", args=(i, j)), "printer": Struct("Printer")}

    def post(self, vc, a, result):
        i, j = a["self"].f["args"]
        return [("text-is-delta-with-space-separated-indices",
                 _s(result) == _cat("\\delta_{", i.f["text"], " ", j.f["text"], "}"))]


@register
class IndexLatex(Contract):
    key = "adcgen.indices:Index._latex"
    props = ["C18"]

    def setup(self, vc):
        spin = ["", "a", "b"][vc.choose(3, "spin")]
        return {"self": Struct("IndexObj", name=Sym(z3.String("index_name")), spin=spin),
                "printer": Struct("Printer")}

    def post(self, vc, a, result):
        me = a["self"].f
        suffix = {"": "", "a": "_{\\alpha}", "b": "_{\\beta}"}[me["spin"]]
        return [("text-is-name-with-the-spin-label", _s(result) == _cat(me["name"], suffix))]
