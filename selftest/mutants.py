"""Seeded breaks: small semantic changes of the real source that must fail a
named obligation."""
MUTANTS = [
 {"id": "c09-pk-swap", "prop": "C09", "file": "adcgen/sympy_objects.py",
  "old": "            else:  # go / gv\n                return (j, i)\n        elif spin2:",
  "new": "            else:  # go / gv\n                return (i, j)\n        elif spin2:"},
 {"id": "c09-pk-none", "prop": "C09", "file": "adcgen/sympy_objects.py",
  "old": "            else:  # og / vg  -> 1 holds more space information\n                return None",
  "new": "            else:  # og / vg  -> 1 holds more space information\n                return (j, i)"},
 {"id": "c09-eqinfo", "prop": "C09", "file": "adcgen/sympy_objects.py",
  "old": "return i.space == j.space and i.spin == j.spin",
  "new": "return i.space == j.space"},
 {"id": "c01-contraction-table", "prop": "C01", "file": "adcgen/func.py",
  "old": "        if space_p == \"o\" or space_q == \"o\":\n            return S.Zero\n        elif space_p == \"v\"",
  "new": "        if space_p == \"v\" or space_q == \"v\":\n            return S.Zero\n        elif space_p == \"o\""},
 {"id": "c01-sign", "prop": "C01", "file": "adcgen/func.py",
  "old": "if not i % 2:  # introduce -1", "new": "if i % 2:  # introduce -1"},
 {"id": "c01-slice", "prop": "C01", "file": "adcgen/func.py",
  "old": "remaining = op_string[1:i] + op_string[i+1:]", "new": "remaining = op_string[1:i] + op_string[i:]"},
 {"id": "c01-prefilter-general", "prop": "C01", "file": "adcgen/func.py",
  "old": "n_annihilate = annihilate[space] + annihilate[\"general\"]", "new": "n_annihilate = annihilate[space]"},
 {"id": "c01-fresh-space", "prop": "C01", "file": "adcgen/func.py",
  "old": "KroneckerDelta(q_idx, Index('a', above_fermi=True))", "new": "KroneckerDelta(q_idx, Index('i', below_fermi=True))"},
]
MUTANTS += [
 {"id": "c06-braket-sign", "prop": "C06", "file": "adcgen/sympy_objects.py",
  "old": "                if bra_ket_sym is S.NegativeOne:  # add another -1\n                    sign_u += 1",
  "new": "                if bra_ket_sym is S.NegativeOne:  # add another -1\n                    sign_u += 2"},
 {"id": "c06-key-noninjective", "prop": "C06", "file": "adcgen/indices.py",
  "old": "                idx.name[0],\n                idx.name,\n", "new": "                idx.name[0],\n"},
 {"id": "c06-delta-spin", "prop": "C06", "file": "adcgen/sympy_objects.py",
  "old": "if spi and spj and spi != spj:  # delta_ab / delta_ba", "new": "if spi != spj:  # delta_ab / delta_ba"},
 {"id": "c06-delta-noncanonical", "prop": "C06", "file": "adcgen/sympy_objects.py",
  "old": "        if i != min(i, j, key=sort_idx_canonical):\n            return cls(j, i)", "new": "        pass"},
 {"id": "c06-sym-sign", "prop": "C06", "file": "adcgen/sympy_objects.py",
  "old": "                if bra_ket_sym is S.NegativeOne:\n                    negative_sign = True",
  "new": "                if bra_ket_sym is S.One:\n                    negative_sign = True"},
]
HARMLESS = [
 # exchanging identical bra and ket tuples is unobservable
 {"id": "c06-h-swap-names", "prop": "C06", "file": "adcgen/sympy_objects.py",
  "old": "                if lower_names < upper_names:\n                    return True",
  "new": "                if lower_names <= upper_names:\n                    return True"},

 # any strict total order of bra vs ket is a valid canonical form
 {"id": "c06-h-spin-order", "prop": "C06", "file": "adcgen/sympy_objects.py",
  "old": "            if spin_l < spin_u:\n                return True", "new": "            if spin_l > spin_u:\n                return True"},
 {"id": "c06-h-delta-max", "prop": "C06", "file": "adcgen/sympy_objects.py",
  "old": "if i != min(i, j, key=sort_idx_canonical):", "new": "if i != max(i, j, key=sort_idx_canonical):"},
]
_GS = "adcgen/groundstate.py"
MUTANTS += [
 {"id": "c02-psi-sign", "prop": "C02", "file": _GS, "old": "if excitation == 2:  # doubles", "new": "if excitation == 3:  # doubles"},
 {"id": "c02-psi-pref", "prop": "C02", "file": _GS, "old": "Rational(1, factorial(excitation) ** 2)", "new": "Rational(1, factorial(excitation))"},
 {"id": "c02-psi-nidx", "prop": "C02", "file": _GS, "old": "get_generic_indices(occ=2*order, virt=2*order)", "new": "get_generic_indices(occ=order, virt=2*order)"},
 {"id": "c02-psi-range", "prop": "C02", "file": _GS, "old": "for excitation in range(1, order * 2 + 1):", "new": "for excitation in range(1, order * 2):"},
 {"id": "c02-psi-swapped-amp", "prop": "C02", "file": _GS, "old": "t = Amplitude(tensor_name, virt, occ)", "new": "t = Amplitude(tensor_name, occ, virt)"},
 {"id": "c02-psi-cached", "prop": "C02", "file": _GS, "old": "    def psi(self, order: int, braket: str):", "new": "    @cached_member\n    def psi(self, order: int, braket: str):"},
 {"id": "c02-psi-singles", "prop": "C02", "file": _GS, "old": "if order == 1 and not self.singles and excitation == 1:", "new": "if not self.singles and excitation == 1:"},
 {"id": "c02-energy-order", "prop": "C02", "file": _GS, "old": "            self.psi(order=order-1, braket='ket')\n        e = bra * h * ket", "new": "            self.psi(order=order, braket='ket')\n        e = bra * h * ket"},
 {"id": "c02-energy-h", "prop": "C02", "file": _GS, "old": "h, rules = self.h.h0 if order == 0 else self.h.h1", "new": "h, rules = self.h.h0 if order <= 1 else self.h.h1"},
 {"id": "c02-amp-minorder", "prop": "C02", "file": _GS, "old": "terms = gen_term_orders(order=order, term_length=2, min_order=1)", "new": "terms = gen_term_orders(order=order, term_length=2, min_order=0)"},
 {"id": "c02-amp-sign", "prop": "C02", "file": _GS, "old": "            if n_ov[\"occ\"] == 2:  # doubles... special sign\n                ret += contrib", "new": "            if n_ov[\"occ\"] == 1:  # doubles... special sign\n                ret += contrib"},
 {"id": "c02-amp-denom", "prop": "C02", "file": _GS, "old": "        if len(lower) == 2:  # doubles amplitude: a+b-i-j", "new": "        if len(lower) == 3:  # doubles amplitude: a+b-i-j"},
 {"id": "c02-amp-bra", "prop": "C02", "file": _GS, "old": "        bra = self.h.excitation_operator(creation=lower, annihilation=upper,\n                                         reverse_annihilation=True)\n\n        # construct <k|H1|psi^(n-1)>", "new": "        bra = self.h.excitation_operator(creation=upper, annihilation=lower,\n                                         reverse_annihilation=True)\n\n        # construct <k|H1|psi^(n-1)>"},
 {"id": "c02-amp-order-of-product", "prop": "C02", "file": _GS, "old": "ret = bra * h1 * self.psi(order-1, \"ket\")", "new": "ret = h1 * bra * self.psi(order-1, \"ket\")"},
 {"id": "c02-resid-h0", "prop": "C02", "file": _GS, "old": "term = bra * h0 * self.psi(order, 'ket')", "new": "term = bra * h0 * self.psi(order - 1, 'ket')"},
 {"id": "c02-resid-skip", "prop": "C02", "file": _GS, "old": "            if n_ov[\"occ\"] > 2 * t_order or \\", "new": "            if n_ov[\"occ\"] >= 2 * t_order or \\"},
 {"id": "c02-overlap-minorder", "prop": "C02", "file": _GS, "old": "        orders = gen_term_orders(order=order, term_length=2, min_order=0)\n        res = 0\n        for term in orders:\n            # each wfn", "new": "        orders = gen_term_orders(order=order, term_length=2, min_order=1)\n        res = 0\n        for term in orders:\n            # each wfn"},
]
